package ssax

import (
	"fmt"
	"go/token"
	"go/types"
	"sort"
	"strings"

	"golang.org/x/tools/go/ssa"
)

// Src is a leaf of a backward provenance walk: the root value plus the field
// path selected on it ("[]" = element of).
type Src struct {
	Kind string // param | freevar | const | global | zero | recv | call | outparam | fresh | composite | binop | unop | alloc | rangekey | other
	V    ssa.Value
	Path []string
	Call *ssa.CallCommon // for call / outparam
	Res  int             // result index for call
	Fn   *ssa.Function   // function the leaf was found in
}

// String renders a leaf.
func (s Src) String() string {
	p := ""
	if len(s.Path) > 0 {
		p = "." + strings.Join(s.Path, ".")
	}
	switch s.Kind {
	case "param":
		return "param:" + s.V.Name() + p
	case "freevar":
		return "freevar:" + s.V.Name() + p
	case "const":
		c := s.V.(*ssa.Const)
		if c.Value == nil {
			return "const:nil" + p
		}
		return "const:" + c.Value.String() + p
	case "global":
		g := s.V.(*ssa.Global)
		return "global:" + g.Pkg.Pkg.Name() + "." + g.Name() + p
	case "zero":
		return "zero" + p
	case "recv":
		return "recv" + p
	case "call":
		return fmt.Sprintf("call:%s#%d%s", shortName(CalleeName(s.Call)), s.Res, p)
	case "outparam":
		return fmt.Sprintf("outparam:%s%s", shortName(CalleeName(s.Call)), p)
	}
	return s.Kind + p
}

func shortName(s string) string {
	return strings.ReplaceAll(s, "github.com/netflix/rend/", "")
}

// Prov is a provenance walker.
type Prov struct {
	// Inline, when non-nil, says whether a static callee may be summarised
	// (its results traced back to its parameters and substituted).
	Inline func(*ssa.Function) bool
	// MaxDepth bounds inlining (default 2).
	MaxDepth int
	// Through, when it returns a non-nil list, makes a call transparent: the
	// result is traced into the listed arguments (builtin append is always
	// traced into both operands).
	Through func(*ssa.CallCommon) []int
	// AppendBaseOnly follows only the first operand of builtin append (the slice
	// being extended), ignoring the appended material.
	AppendBaseOnly bool
	// AppendMemory: follow only the base of append (which memory the result may live in, not what it contains).
	AppendMemory bool
	// ExpandComposite makes a request for a whole struct built field by field
	// return the sources of every field instead of one "composite" leaf.
	ExpandComposite bool
}

type provKey struct {
	v    ssa.Value
	path string
	addr bool
}

type provAtKey struct {
	v    ssa.Value
	path string
	at   ssa.Instruction
}

type walker struct {
	pv     *Prov
	seenAt map[provAtKey]bool
	seen   map[provKey]bool
	out    []Src
	depth  int
}

// Sources returns the leaves v.path may come from.
func (pv *Prov) Sources(v ssa.Value, path ...string) []Src {
	w := &walker{pv: pv, seen: map[provKey]bool{}}
	w.val(v, path)
	return w.out
}

// Strings renders and sorts a leaf set (deduplicated).
func Strings(srcs []Src) []string {
	m := map[string]bool{}
	for _, s := range srcs {
		m[s.String()] = true
	}
	var out []string
	for s := range m {
		out = append(out, s)
	}
	sort.Strings(out)
	return out
}

func cat(a string, rest []string) []string {
	out := make([]string, 0, len(rest)+1)
	out = append(out, a)
	return append(out, rest...)
}

func (w *walker) leaf(s Src) {
	if f, ok := s.V.(interface{ Parent() *ssa.Function }); ok && s.V != nil {
		s.Fn = f.Parent()
	}
	w.out = append(w.out, s)
}

func (w *walker) val(v ssa.Value, path []string) {
	k := provKey{v, strings.Join(path, "."), false}
	if w.seen[k] {
		return
	}
	w.seen[k] = true
	switch x := v.(type) {
	case *ssa.Parameter:
		w.leaf(Src{Kind: "param", V: x, Path: path})
	case *ssa.FreeVar:
		w.leaf(Src{Kind: "freevar", V: x, Path: path})
	case *ssa.Const:
		if len(path) > 0 {
			// field of a zero-valued struct constant
			w.leaf(Src{Kind: "zero", V: x, Path: path})
		} else {
			w.leaf(Src{Kind: "const", V: x})
		}
	case *ssa.Global:
		w.leaf(Src{Kind: "global", V: x, Path: path})
	case *ssa.Field:
		n, _ := FieldName(x)
		w.val(x.X, cat(n, path))
	case *ssa.FieldAddr, *ssa.IndexAddr:
		// pointer value itself: treat selection through it as a deref
		w.addr(v, path, nil)
	case *ssa.UnOp:
		switch x.Op {
		case token.MUL:
			w.addr(x.X, path, x)
		case token.ARROW:
			w.leaf(Src{Kind: "recv", V: x.X, Path: path})
		default:
			w.leaf(Src{Kind: "unop", V: x, Path: path})
		}
	case *ssa.Phi:
		for _, e := range x.Edges {
			w.val(e, path)
		}
	case *ssa.Extract:
		w.extract(x, path)
	case *ssa.Call:
		w.call(x, &x.Call, 0, path)
	case *ssa.Convert:
		w.val(x.X, path)
	case *ssa.ChangeType:
		w.val(x.X, path)
	case *ssa.MakeInterface:
		w.val(x.X, path)
	case *ssa.ChangeInterface:
		w.val(x.X, path)
	case *ssa.TypeAssert:
		w.val(x.X, path)
	case *ssa.Slice:
		w.val(x.X, path)
	case *ssa.Index:
		w.val(x.X, cat("[]", path))
	case *ssa.Lookup:
		w.val(x.X, cat("[]", path))
	case *ssa.BinOp:
		w.leaf(Src{Kind: "binop", V: x, Path: path})
	case *ssa.Alloc:
		if len(path) > 0 {
			w.addr(x, path, nil)
		} else {
			w.leaf(Src{Kind: "alloc", V: x})
		}
	case *ssa.MakeSlice, *ssa.MakeMap, *ssa.MakeChan, *ssa.MakeClosure:
		w.leaf(Src{Kind: "fresh", V: v, Path: path})
	default:
		w.leaf(Src{Kind: "other", V: v, Path: path})
	}
}

func (w *walker) extract(x *ssa.Extract, path []string) {
	switch t := x.Tuple.(type) {
	case *ssa.Call:
		w.call(t, &t.Call, x.Index, path)
	case *ssa.Select:
		if x.Index < 2 {
			w.leaf(Src{Kind: "other", V: x, Path: path})
			return
		}
		k := x.Index - 2
		for _, st := range t.States {
			if st.Dir == types.RecvOnly {
				if k == 0 {
					w.leaf(Src{Kind: "recv", V: st.Chan, Path: path})
					return
				}
				k--
			}
		}
		w.leaf(Src{Kind: "other", V: x, Path: path})
	case *ssa.UnOp:
		if t.Op == token.ARROW && x.Index == 0 {
			w.leaf(Src{Kind: "recv", V: t.X, Path: path})
			return
		}
		w.leaf(Src{Kind: "other", V: x, Path: path})
	case *ssa.TypeAssert:
		if x.Index == 0 {
			w.val(t.X, path)
			return
		}
		w.leaf(Src{Kind: "other", V: x, Path: path})
	case *ssa.Lookup:
		if x.Index == 0 {
			w.val(t.X, cat("[]", path))
			return
		}
		w.leaf(Src{Kind: "other", V: x, Path: path})
	case *ssa.Next:
		if rg, ok := t.Iter.(*ssa.Range); ok {
			if x.Index == 2 {
				w.val(rg.X, cat("[]", path))
				return
			}
			if x.Index == 1 {
				w.leaf(Src{Kind: "rangekey", V: rg.X, Path: path})
				return
			}
		}
		w.leaf(Src{Kind: "other", V: x, Path: path})
	default:
		w.leaf(Src{Kind: "other", V: x, Path: path})
	}
}

func (w *walker) call(v ssa.Value, cc *ssa.CallCommon, res int, path []string) {
	if b, ok := cc.Value.(*ssa.Builtin); ok && b.Name() == "append" && w.pv.AppendMemory {
		// memory identity: the result is the base's backing array or a fresh one, never the appended material's
		w.val(cc.Args[0], path)
		return
	}
	if b, ok := cc.Value.(*ssa.Builtin); ok && b.Name() == "append" {
		for i, a := range cc.Args {
			if i > 0 && w.pv.AppendBaseOnly {
				break
			}
			if i == 0 && w.pv.AppendBaseOnly && len(cc.Args) > 1 && emptySlice(a) {
				// append(make([]T, 0, n), x...) / append([]T(nil), x...): the copy idiom - the
				// result starts with the appended material
				w.val(cc.Args[1], path)
				break
			}
			w.val(a, path)
		}
		return
	}
	if w.pv.Through != nil {
		if idx := w.pv.Through(cc); idx != nil {
			for _, i := range idx {
				if i < len(cc.Args) {
					w.val(cc.Args[i], path)
				}
			}
			return
		}
	}
	callee := cc.StaticCallee()
	maxd := w.pv.MaxDepth
	if maxd == 0 {
		maxd = 2
	}
	if callee != nil && len(callee.Blocks) > 0 && w.pv.Inline != nil && w.pv.Inline(callee) && w.depth < maxd {
		// summarise: trace each returned value back; parameters are substituted by arguments
		sub := &walker{pv: w.pv, seen: map[provKey]bool{}, depth: w.depth + 1}
		for _, r := range Returns(callee) {
			if res < len(r.Results) {
				sub.val(r.Results[res], path)
			}
		}
		for _, s := range sub.out {
			if s.Kind == "param" {
				idx := -1
				for i, p := range callee.Params {
					if p == s.V {
						idx = i
					}
				}
				if idx >= 0 && idx < len(cc.Args) {
					w.val(cc.Args[idx], s.Path)
					continue
				}
			}
			w.out = append(w.out, s)
		}
		return
	}
	w.leaf(Src{Kind: "call", V: v, Call: cc, Res: res, Path: path})
}

// addr walks the possible contents of *a selected by path, as seen by the load
// instruction at (nil = flow-insensitive).
func (w *walker) addr(a ssa.Value, path []string, at ssa.Instruction) {
	k := provKey{a, strings.Join(path, "."), true}
	if at == nil {
		if w.seen[k] {
			return
		}
		w.seen[k] = true
	} else {
		ak := provAtKey{a, strings.Join(path, "."), at}
		if w.seenAt == nil {
			w.seenAt = map[provAtKey]bool{}
		}
		if w.seenAt[ak] {
			return
		}
		w.seenAt[ak] = true
	}
	switch x := a.(type) {
	case *ssa.Alloc:
		w.allocStores(x, path, at)
	case *ssa.FieldAddr:
		n, _ := FieldName(x)
		w.addr(x.X, cat(n, path), at)
	case *ssa.IndexAddr:
		if _, isPtr := x.X.Type().Underlying().(*types.Pointer); isPtr {
			w.addr(x.X, cat("[]", path), at)
		} else {
			w.val(x.X, cat("[]", path))
		}
	case *ssa.Global:
		w.leaf(Src{Kind: "global", V: x, Path: path})
	case *ssa.Phi:
		for _, e := range x.Edges {
			w.addr(e, path, at)
		}
	case *ssa.FreeVar:
		// captured variable: resolve to the cell in the enclosing function
		if cell := ResolveFreeVar(x); cell != nil {
			w.addr(cell, path, nil)
			return
		}
		w.leaf(Src{Kind: "freevar", V: x, Path: path})
	default:
		// pointer produced by something else (parameter, load, call): deref is transparent
		w.val(a, path)
	}
}

// ResolveFreeVar returns the value bound to a free variable at the (unique)
// MakeClosure site of its function in the parent, or nil.
func ResolveFreeVar(fv *ssa.FreeVar) ssa.Value {
	fn := fv.Parent()
	parent := fn.Parent()
	if parent == nil {
		return nil
	}
	idx := -1
	for i, f := range fn.FreeVars {
		if f == fv {
			idx = i
		}
	}
	var found ssa.Value
	n := 0
	Instrs(parent, func(ins ssa.Instruction) {
		if mc, ok := ins.(*ssa.MakeClosure); ok && mc.Fn == fn && idx >= 0 && idx < len(mc.Bindings) {
			found = mc.Bindings[idx]
			n++
		}
	})
	if n == 1 {
		return found
	}
	return nil
}

// StoresTo lists the values stored into cell.path (flow-insensitive), including
// stores made by closures capturing the cell. whole reports stores of the whole cell.
func StoresTo(cell ssa.Value) []*ssa.Store {
	var out []*ssa.Store
	refs := cell.Referrers()
	if refs == nil {
		return nil
	}
	for _, r := range *refs {
		switch x := r.(type) {
		case *ssa.Store:
			if x.Addr == cell {
				out = append(out, x)
			}
		case *ssa.MakeClosure:
			for i, b := range x.Bindings {
				if b == cell {
					if fn, ok := x.Fn.(*ssa.Function); ok && i < len(fn.FreeVars) {
						out = append(out, StoresTo(fn.FreeVars[i])...)
					}
				}
			}
		}
	}
	return out
}

// storeCand is a store (or out-parameter call) that may define cell.path.
type storeCand struct {
	ins    ssa.Instruction // *ssa.Store, or the call for out-parameters
	val    ssa.Value       // stored value (nil for out-parameters)
	rest   []string        // remaining path to select on val
	strong bool            // overwrites the requested path entirely
	cc     *ssa.CallCommon
	cell   ssa.Value
}

func collectStores(cell ssa.Value, path []string, out *[]storeCand) {
	refs := cell.Referrers()
	if refs == nil {
		return
	}
	for _, r := range *refs {
		switch x := r.(type) {
		case *ssa.Store:
			if x.Addr == cell {
				*out = append(*out, storeCand{ins: x, val: x.Val, rest: path, strong: true})
			}
		case *ssa.FieldAddr:
			if x.X != cell || len(path) == 0 {
				continue
			}
			if n, _ := FieldName(x); path[0] == n {
				collectStores(x, path[1:], out)
			}
		case *ssa.IndexAddr:
			if x.X != cell {
				continue
			}
			if len(path) > 0 && path[0] == "[]" {
				var sub []storeCand
				collectStores(x, path[1:], &sub)
				for _, sc := range sub {
					sc.strong = false // another index may be meant
					*out = append(*out, sc)
				}
			}
		case *ssa.MakeClosure:
			for i, b := range x.Bindings {
				if b == cell {
					if fn, ok := x.Fn.(*ssa.Function); ok && i < len(fn.FreeVars) {
						collectStores(fn.FreeVars[i], path, out)
					}
				}
			}
		case *ssa.Call, *ssa.Defer, *ssa.Go:
			cc := CallOf(r)
			for _, arg := range cc.Args {
				if arg == cell {
					*out = append(*out, storeCand{ins: r, rest: path, cc: cc, cell: cell})
				}
			}
		case *ssa.MakeInterface:
			// &x boxed into an interface and passed on (binary.Read(r, order, &v))
			if x.X == cell {
				if irefs := x.Referrers(); irefs != nil {
					for _, ir := range *irefs {
						if cc := CallOf(ir); cc != nil {
							*out = append(*out, storeCand{ins: ir, rest: path, cc: cc, cell: cell})
						}
					}
				}
			}
		case *ssa.Slice:
			// x[:] of an array cell handed to a callee that may fill it (rand.Read(buf[:]))
			if x.X == cell {
				if srefs := x.Referrers(); srefs != nil {
					for _, sr := range *srefs {
						if cc := CallOf(sr); cc != nil {
							if b, isB := cc.Value.(*ssa.Builtin); isB && b.Name() != "copy" {
								continue
							}
							for i, arg := range cc.Args {
								if arg == ssa.Value(x) {
									if b, isB := cc.Value.(*ssa.Builtin); isB && b.Name() == "copy" && i != 0 {
										continue
									}
									*out = append(*out, storeCand{ins: sr, rest: path, cc: cc, cell: cell})
								}
							}
						}
					}
				}
			}
		}
	}
}

func (w *walker) allocStores(a *ssa.Alloc, path []string, at ssa.Instruction) {
	var cands []storeCand
	collectStores(a, path, &cands)
	hasField := false
	if len(path) == 0 {
		if refs := a.Referrers(); refs != nil {
			for _, r := range *refs {
				if fa, ok := r.(*ssa.FieldAddr); ok && fa.X == a {
					hasField = true
				}
			}
		}
	}
	// flow-sensitive filtering is possible when the load and every candidate live in the alloc's function
	flow := at != nil && at.Parent() == a.Parent() && !hasField
	for _, sc := range cands {
		if sc.ins.Parent() != a.Parent() {
			flow = false
		}
	}
	reaches := func(from ssa.Instruction, self ssa.Instruction) bool {
		hit, _ := Reach{
			Target: func(ins ssa.Instruction) bool { return ins == at },
			Avoid: func(ins ssa.Instruction) bool {
				if ins == self {
					return false
				}
				for _, sc := range cands {
					if sc.strong && sc.ins == ins {
						return true
					}
				}
				return false
			},
		}.From(from)
		return hit != nil
	}
	found := false
	for _, sc := range cands {
		if flow && !reaches(sc.ins, sc.ins) {
			continue
		}
		found = true
		if sc.val != nil {
			w.val(sc.val, sc.rest)
		} else {
			w.leaf(Src{Kind: "outparam", V: sc.cell, Call: sc.cc, Path: sc.rest})
		}
	}
	if hasField {
		if w.pv.ExpandComposite {
			if refs := a.Referrers(); refs != nil {
				for _, r := range *refs {
					if fa, ok := r.(*ssa.FieldAddr); ok && fa.X == ssa.Value(a) {
						n, _ := FieldName(fa)
						w.addr(a, []string{n}, at)
					}
				}
			}
		} else {
			w.leaf(Src{Kind: "composite", V: a})
		}
		found = true
	}
	if flow {
		if reaches(a, nil) {
			w.leaf(Src{Kind: "zero", V: a, Path: path})
		}
	} else if !found {
		w.leaf(Src{Kind: "zero", V: a, Path: path})
	}
}

// All reports whether every leaf satisfies pred (false on an empty set).
func All(srcs []Src, pred func(Src) bool) bool {
	if len(srcs) == 0 {
		return false
	}
	for _, s := range srcs {
		if !pred(s) {
			return false
		}
	}
	return true
}

// Any reports whether some leaf satisfies pred.
func Any(srcs []Src, pred func(Src) bool) bool {
	for _, s := range srcs {
		if pred(s) {
			return true
		}
	}
	return false
}

// IsParamPath matches "param <name> . path".
func (s Src) IsParamPath(name string, path ...string) bool {
	return s.Kind == "param" && s.V.Name() == name && eq(s.Path, path)
}

func eq(a, b []string) bool {
	if len(a) != len(b) {
		return false
	}
	for i := range a {
		if a[i] != b[i] {
			return false
		}
	}
	return true
}

// PathIs matches the leaf's field path.
func (s Src) PathIs(path ...string) bool { return eq(s.Path, path) }

// Defs returns the SSA values that may flow into v through phis and loads of
// local cells (flow-sensitive for cells private to one function); anything else
// is returned as it is.
func Defs(v ssa.Value) []ssa.Value {
	var out []ssa.Value
	seen := map[ssa.Value]bool{}
	var walk func(v ssa.Value)
	walk = func(v ssa.Value) {
		if seen[v] {
			return
		}
		seen[v] = true
		switch x := v.(type) {
		case *ssa.Phi:
			for _, e := range x.Edges {
				walk(e)
			}
			return
		case *ssa.UnOp:
			if x.Op == token.MUL {
				if al, ok := x.X.(*ssa.Alloc); ok {
					var cands []storeCand
					collectStores(al, nil, &cands)
					flow := true
					for _, sc := range cands {
						if sc.ins.Parent() != al.Parent() || sc.val == nil {
							flow = false
						}
					}
					n := 0
					for _, sc := range cands {
						if sc.val == nil {
							continue
						}
						if flow {
							self := sc.ins
							hit, _ := Reach{
								Target: func(ins ssa.Instruction) bool { return ins == ssa.Instruction(x) },
								Avoid: func(ins ssa.Instruction) bool {
									if ins == self {
										return false
									}
									for _, o := range cands {
										if o.strong && o.ins == ins {
											return true
										}
									}
									return false
								},
							}.From(sc.ins)
							if hit == nil {
								continue
							}
						}
						n++
						walk(sc.val)
					}
					if n > 0 {
						return
					}
				}
			}
		}
		out = append(out, v)
	}
	walk(v)
	return out
}

// emptySlice: a nil slice constant or a make with constant length 0.
func emptySlice(v ssa.Value) bool {
	switch x := Unwrap(v).(type) {
	case *ssa.Const:
		return x.IsNil()
	case *ssa.MakeSlice:
		k, ok := ConstInt(x.Len)
		return ok && k == 0
	case *ssa.Slice:
		// new([n]T)[:0]
		if x.High != nil {
			k, ok := ConstInt(x.High)
			return ok && k == 0
		}
	}
	return false
}
