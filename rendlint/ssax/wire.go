package ssax

import (
	"go/token"
	"strings"

	"golang.org/x/tools/go/ssa"
)

// BufAccess is one fixed-offset access to a byte buffer.
type BufAccess struct {
	Lo, Hi int64 // byte range [Lo,Hi); Hi == -1 when open ended
	Width  int   // 1, 2, 4, 8 bytes (0 for copy)
	Val    ssa.Value
	Buf    ssa.Value
	Ins    ssa.Instruction
	Order  string // "big" | "little" | ""
	Kind   string // put | get | store | load | copy
}

func sliceBounds(v ssa.Value) (buf ssa.Value, lo, hi int64, ok bool) {
	sl, isSlice := v.(*ssa.Slice)
	if !isSlice {
		return nil, 0, 0, false
	}
	lo, hi = 0, -1
	if sl.Low != nil {
		n, k := ConstInt(sl.Low)
		if !k {
			return nil, 0, 0, false
		}
		lo = n
	}
	if sl.High != nil {
		n, k := ConstInt(sl.High)
		if !k {
			return nil, 0, 0, false
		}
		hi = n
	}
	return sl.X, lo, hi, true
}

// BufAccesses extracts encoding/binary Put*/Uint* calls on constant sub-slices,
// constant-index byte stores/loads and copy() into constant sub-slices.
func BufAccesses(fn *ssa.Function) []BufAccess {
	var out []BufAccess
	Instrs(fn, func(ins ssa.Instruction) {
		switch x := ins.(type) {
		case *ssa.Store:
			if ia, ok := x.Addr.(*ssa.IndexAddr); ok {
				if n, ok := ConstInt(ia.Index); ok {
					out = append(out, BufAccess{Lo: n, Hi: n + 1, Width: 1, Val: x.Val, Buf: ia.X, Ins: ins, Kind: "store"})
				}
			}
		case *ssa.UnOp:
			if x.Op == token.MUL {
				if ia, ok := x.X.(*ssa.IndexAddr); ok {
					if n, ok := ConstInt(ia.Index); ok {
						out = append(out, BufAccess{Lo: n, Hi: n + 1, Width: 1, Val: x, Buf: ia.X, Ins: ins, Kind: "load"})
					}
				}
			}
		}
		cc := CallOf(ins)
		if cc == nil {
			return
		}
		name := CalleeName(cc)
		if b, ok := cc.Value.(*ssa.Builtin); ok && b.Name() == "copy" {
			if buf, lo, hi, ok := sliceBounds(cc.Args[0]); ok {
				out = append(out, BufAccess{Lo: lo, Hi: hi, Val: cc.Args[1], Buf: buf, Ins: ins, Kind: "copy"})
			}
			return
		}
		if !strings.HasPrefix(name, "(encoding/binary.") {
			return
		}
		order := ""
		if strings.Contains(name, "bigEndian") {
			order = "big"
		} else if strings.Contains(name, "littleEndian") {
			order = "little"
		}
		meth := name[strings.LastIndex(name, ".")+1:]
		width := map[string]int{"PutUint16": 2, "PutUint32": 4, "PutUint64": 8, "Uint16": 2, "Uint32": 4, "Uint64": 8}[meth]
		if width == 0 {
			return
		}
		// args: receiver, slice[, value]
		if len(cc.Args) < 2 {
			return
		}
		buf, lo, hi, ok := sliceBounds(cc.Args[1])
		if !ok {
			// whole buffer
			buf, lo, hi = cc.Args[1], 0, int64(width)
		}
		if strings.HasPrefix(meth, "Put") {
			out = append(out, BufAccess{Lo: lo, Hi: hi, Width: width, Val: cc.Args[2], Buf: buf, Ins: ins, Order: order, Kind: "put"})
		} else if v, ok := ins.(ssa.Value); ok {
			out = append(out, BufAccess{Lo: lo, Hi: hi, Width: width, Val: v, Buf: buf, Ins: ins, Order: order, Kind: "get"})
		}
	})
	return out
}
