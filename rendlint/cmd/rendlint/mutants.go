package main

import (
	"encoding/json"
	"fmt"
	"os"
	"os/exec"
	"path/filepath"
	"sort"
	"strings"
	"sync"

	"rendlint/core"
)

// Mutant is a stored one-instance break (kind "mutant": must be flagged by Expect)
// or a behaviour-preserving variant (kind "variant": must stay silent).
type Mutant struct {
	Name    string `json:"name"`
	Kind    string `json:"kind"`
	File    string `json:"file"` // relative to the repository root
	Find    string `json:"find"`
	Replace string `json:"replace"`
	Nth     int    `json:"nth"`    // which occurrence (1-based; 0 = must be unique)
	Expect  string `json:"expect"` // rule id expected to report (mutants)
	Why     string `json:"why"`
}

func loadMutants(verif, property string) ([]Mutant, error) {
	b, err := os.ReadFile(filepath.Join(verif, "rendlint", "mutants", property+".json"))
	if err != nil {
		if os.IsNotExist(err) {
			return nil, nil
		}
		return nil, err
	}
	var ms []Mutant
	if err := json.Unmarshal(b, &ms); err != nil {
		return nil, fmt.Errorf("mutants/%s.json: %v", property, err)
	}
	return ms, nil
}

func applyMutant(repo string, m Mutant) (map[string]string, string) {
	abs := filepath.Join(repo, m.File)
	b, err := os.ReadFile(abs)
	if err != nil {
		return nil, "file missing"
	}
	src := string(b)
	n := strings.Count(src, m.Find)
	if n == 0 {
		return nil, "pattern no longer present"
	}
	if m.Nth == 0 && n != 1 {
		return nil, fmt.Sprintf("pattern occurs %d times, expected once", n)
	}
	if m.Nth > n {
		return nil, fmt.Sprintf("pattern occurs %d times, occurrence %d requested", n, m.Nth)
	}
	k := m.Nth
	if k == 0 {
		k = 1
	}
	idx := -1
	from := 0
	for i := 0; i < k; i++ {
		j := strings.Index(src[from:], m.Find)
		idx = from + j
		from = idx + len(m.Find)
	}
	out := src[:idx] + m.Replace + src[idx+len(m.Find):]
	return map[string]string{abs: out}, ""
}

// seedMutants turns every confirmed seeded change of the property (/verif/seeded/<id>/patch.diff, written by
// independent sub-agents) into an overlay mutant: the patch is applied with patch(1) to temporary copies of the files
// it touches; the repository itself is never modified. A patch that no longer applies is skipped.
type seedMeta struct {
	ID       string `json:"id"`
	Property string `json:"property"`
	Change   string `json:"change"`
}

func seedOverlays(verif, repo, property string) (names []string, overlays []map[string]string, skipped []string) {
	dirs, _ := filepath.Glob(filepath.Join(verif, "seeded", "*", "meta.json"))
	sort.Strings(dirs)
	for _, mf := range dirs {
		b, err := os.ReadFile(mf)
		if err != nil {
			continue
		}
		var sm seedMeta
		if json.Unmarshal(b, &sm) != nil || sm.Property != property {
			continue
		}
		patch := filepath.Join(filepath.Dir(mf), "patch.diff")
		pb, err := os.ReadFile(patch)
		if err != nil {
			continue
		}
		var files []string
		for _, line := range strings.Split(string(pb), "\n") {
			if strings.HasPrefix(line, "+++ b/") {
				files = append(files, strings.TrimSpace(strings.TrimPrefix(line, "+++ b/")))
			}
		}
		tmp, err := os.MkdirTemp("", "rendlint-seed-*")
		if err != nil {
			continue
		}
		ok := true
		for _, f := range files {
			dst := filepath.Join(tmp, f)
			os.MkdirAll(filepath.Dir(dst), 0o755)
			if src, err := os.ReadFile(filepath.Join(repo, f)); err == nil {
				os.WriteFile(dst, src, 0o644)
			}
		}
		cmd := exec.Command("patch", "-p1", "-s", "-f", "-d", tmp, "-i", patch)
		if out, err := cmd.CombinedOutput(); err != nil {
			ok = false
			_ = out
		}
		ov := map[string]string{}
		if ok {
			for _, f := range files {
				nb, err := os.ReadFile(filepath.Join(tmp, f))
				if err != nil {
					ok = false
					break
				}
				ov[filepath.Join(repo, f)] = string(nb)
			}
		}
		os.RemoveAll(tmp)
		if !ok {
			skipped = append(skipped, sm.ID)
			continue
		}
		names = append(names, sm.ID)
		overlays = append(overlays, ov)
	}
	return
}

func runObligations(o opts, overlayFile string) ([]*core.Obligation, error) {
	self, err := os.Executable()
	if err != nil {
		return nil, err
	}
	args := []string{"check", "--property", o.property, "--tier", "quick", "--repo", o.repo, "--verif", o.verif, "--only", "json"}
	if overlayFile != "" {
		args = append(args, "--overlay", overlayFile)
	}
	cmd := exec.Command(self, args...)
	cmd.Stderr = os.Stderr
	out, err := cmd.Output()
	if err != nil {
		return nil, err
	}
	var obs []*core.Obligation
	if err := json.Unmarshal(out, &obs); err != nil {
		return nil, err
	}
	return obs, nil
}

func bad(obs []*core.Obligation) map[string]*core.Obligation {
	m := map[string]*core.Obligation{}
	for _, ob := range obs {
		if ob.Status == core.Violated || ob.Status == core.Undecided {
			m[ob.Rule+"|"+ob.Key] = ob
		}
	}
	return m
}

// selfValidate applies every stored mutant / variant of the property as an in-memory
// overlay in a fresh subprocess. It never changes the exit status of the check.
func selfValidate(o opts) map[string]interface{} {
	res := map[string]interface{}{}
	ms, err := loadMutants(o.verif, o.property)
	if err != nil {
		res["error"] = err.Error()
		return res
	}
	base, err := runObligations(o, "")
	if err != nil {
		res["error"] = "baseline: " + err.Error()
		return res
	}
	baseBad := bad(base)
	type outcome struct {
		Name, Kind, Result, Detail string
	}
	names, seedOvs, seedSkipped := seedOverlays(o.verif, o.repo, o.property)
	outs := make([]outcome, len(ms)+len(seedOvs))
	sem := make(chan struct{}, 6)
	var wg sync.WaitGroup
	// evaluate applies one overlay in a fresh subprocess and lists the obligations that fail with it and not without
	evaluate := func(ov map[string]string) (fresh []string, rules map[string]bool, broken string, err error) {
		f, _ := os.CreateTemp("", "rendlint-overlay-*.json")
		b, _ := json.Marshal(ov)
		f.Write(b)
		f.Close()
		defer os.Remove(f.Name())
		obs, err := runObligations(o, f.Name())
		if err != nil {
			return nil, nil, "", err
		}
		rules = map[string]bool{}
		for k, ob := range bad(obs) {
			if _, was := baseBad[k]; was {
				continue
			}
			if ob.Rule == "R0" {
				broken = ob.Detail
			}
			fresh = append(fresh, ob.Rule+" "+ob.Key)
			rules[ob.Rule] = true
		}
		sort.Strings(fresh)
		if len(broken) > 160 {
			broken = broken[:160]
		}
		return
	}
	for i, m := range ms {
		wg.Add(1)
		go func(i int, m Mutant) {
			defer wg.Done()
			sem <- struct{}{}
			defer func() { <-sem }()
			ov, why := applyMutant(o.repo, m)
			if ov == nil {
				outs[i] = outcome{m.Name, m.Kind, "skipped", why}
				return
			}
			fresh, rules, broken, err := evaluate(ov)
			if err != nil {
				outs[i] = outcome{m.Name, m.Kind, "error", err.Error()}
				return
			}
			hit := rules[m.Expect]
			if broken != "" {
				outs[i] = outcome{m.Name, m.Kind, "skipped", "does not compile: " + broken}
				return
			}
			switch m.Kind {
			case "variant":
				if len(fresh) == 0 {
					outs[i] = outcome{m.Name, m.Kind, "silent", ""}
				} else {
					outs[i] = outcome{m.Name, m.Kind, "FALSE-ALARM", strings.Join(fresh, "; ")}
				}
			default:
				if hit {
					outs[i] = outcome{m.Name, m.Kind, "detected", strings.Join(fresh, "; ")}
				} else if len(fresh) > 0 {
					outs[i] = outcome{m.Name, m.Kind, "detected-by-other-rule", strings.Join(fresh, "; ")}
				} else {
					outs[i] = outcome{m.Name, m.Kind, "MISSED", "expected " + m.Expect}
				}
			}
		}(i, m)
	}
	for j := range seedOvs {
		wg.Add(1)
		go func(i int, name string, ov map[string]string) {
			defer wg.Done()
			sem <- struct{}{}
			defer func() { <-sem }()
			fresh, _, broken, err := evaluate(ov)
			switch {
			case err != nil:
				outs[i] = outcome{name, "seed", "error", err.Error()}
			case broken != "":
				outs[i] = outcome{name, "seed", "skipped", "does not compile: " + broken}
			case len(fresh) > 0:
				outs[i] = outcome{name, "seed", "detected", strings.Join(fresh, "; ")}
			default:
				outs[i] = outcome{name, "seed", "MISSED", ""}
			}
		}(len(ms)+j, names[j], seedOvs[j])
	}
	wg.Wait()
	applied, detected, vApplied, vSilent, sApplied, sDetected := 0, 0, 0, 0, 0, 0
	var list []map[string]string
	for _, oc := range outs {
		list = append(list, map[string]string{"name": oc.Name, "kind": oc.Kind, "result": oc.Result, "detail": oc.Detail})
		if oc.Result == "skipped" || oc.Result == "error" {
			continue
		}
		if oc.Kind == "seed" {
			sApplied++
			if oc.Result == "detected" {
				sDetected++
			}
		} else if oc.Kind == "variant" {
			vApplied++
			if oc.Result == "silent" {
				vSilent++
			}
		} else {
			applied++
			if strings.HasPrefix(oc.Result, "detected") {
				detected++
			}
		}
	}
	res["mutants_applied"] = applied
	res["mutants_detected"] = detected
	res["variants_applied"] = vApplied
	res["variants_silent"] = vSilent
	res["seeded_changes_applied"] = sApplied
	res["seeded_changes_detected"] = sDetected
	res["seeded_changes_skipped"] = seedSkipped
	res["outcomes"] = list
	return res
}

func mutantsCmd(args []string) int {
	o := parse(args)
	sv := selfValidate(o)
	b, _ := json.MarshalIndent(sv, "", " ")
	fmt.Println(string(b))
	if sv["mutants_applied"] != sv["mutants_detected"] || sv["variants_applied"] != sv["variants_silent"] || sv["seeded_changes_applied"] != sv["seeded_changes_detected"] {
		return 1
	}
	return 0
}
