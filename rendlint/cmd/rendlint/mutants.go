package main

import (
	"encoding/json"
	"fmt"
	"os"
	"os/exec"
	"path/filepath"
	"sort"
	"strings"
	"sync"

	"rendlint/core"
)

// Mutant is a stored one-instance break (kind "mutant": must be flagged by Expect)
// or a behaviour-preserving variant (kind "variant": must stay silent).
type Mutant struct {
	Name    string `json:"name"`
	Kind    string `json:"kind"`
	File    string `json:"file"` // relative to the repository root
	Find    string `json:"find"`
	Replace string `json:"replace"`
	Nth     int    `json:"nth"`    // which occurrence (1-based; 0 = must be unique)
	Expect  string `json:"expect"` // rule id expected to report (mutants)
	Why     string `json:"why"`
}

func loadMutants(verif, property string) ([]Mutant, error) {
	b, err := os.ReadFile(filepath.Join(verif, "rendlint", "mutants", property+".json"))
	if err != nil {
		if os.IsNotExist(err) {
			return nil, nil
		}
		return nil, err
	}
	var ms []Mutant
	if err := json.Unmarshal(b, &ms); err != nil {
		return nil, fmt.Errorf("mutants/%s.json: %v", property, err)
	}
	return ms, nil
}

func applyMutant(repo string, m Mutant) (map[string]string, string) {
	abs := filepath.Join(repo, m.File)
	b, err := os.ReadFile(abs)
	if err != nil {
		return nil, "file missing"
	}
	src := string(b)
	n := strings.Count(src, m.Find)
	if n == 0 {
		return nil, "pattern no longer present"
	}
	if m.Nth == 0 && n != 1 {
		return nil, fmt.Sprintf("pattern occurs %d times, expected once", n)
	}
	if m.Nth > n {
		return nil, fmt.Sprintf("pattern occurs %d times, occurrence %d requested", n, m.Nth)
	}
	k := m.Nth
	if k == 0 {
		k = 1
	}
	idx := -1
	from := 0
	for i := 0; i < k; i++ {
		j := strings.Index(src[from:], m.Find)
		idx = from + j
		from = idx + len(m.Find)
	}
	out := src[:idx] + m.Replace + src[idx+len(m.Find):]
	return map[string]string{abs: out}, ""
}

func runObligations(o opts, overlayFile string) ([]*core.Obligation, error) {
	self, err := os.Executable()
	if err != nil {
		return nil, err
	}
	args := []string{"check", "--property", o.property, "--tier", "quick", "--repo", o.repo, "--verif", o.verif, "--only", "json"}
	if overlayFile != "" {
		args = append(args, "--overlay", overlayFile)
	}
	cmd := exec.Command(self, args...)
	cmd.Stderr = os.Stderr
	out, err := cmd.Output()
	if err != nil {
		return nil, err
	}
	var obs []*core.Obligation
	if err := json.Unmarshal(out, &obs); err != nil {
		return nil, err
	}
	return obs, nil
}

func bad(obs []*core.Obligation) map[string]*core.Obligation {
	m := map[string]*core.Obligation{}
	for _, ob := range obs {
		if ob.Status == core.Violated || ob.Status == core.Undecided {
			m[ob.Rule+"|"+ob.Key] = ob
		}
	}
	return m
}

// selfValidate applies every stored mutant / variant of the property as an in-memory
// overlay in a fresh subprocess. It never changes the exit status of the check.
func selfValidate(o opts) map[string]interface{} {
	res := map[string]interface{}{}
	ms, err := loadMutants(o.verif, o.property)
	if err != nil {
		res["error"] = err.Error()
		return res
	}
	if len(ms) == 0 {
		res["mutants_applied"] = 0
		return res
	}
	base, err := runObligations(o, "")
	if err != nil {
		res["error"] = "baseline: " + err.Error()
		return res
	}
	baseBad := bad(base)
	type outcome struct {
		Name, Kind, Result, Detail string
	}
	outs := make([]outcome, len(ms))
	sem := make(chan struct{}, 6)
	var wg sync.WaitGroup
	for i, m := range ms {
		wg.Add(1)
		go func(i int, m Mutant) {
			defer wg.Done()
			sem <- struct{}{}
			defer func() { <-sem }()
			ov, why := applyMutant(o.repo, m)
			if ov == nil {
				outs[i] = outcome{m.Name, m.Kind, "skipped", why}
				return
			}
			f, _ := os.CreateTemp("", "rendlint-overlay-*.json")
			b, _ := json.Marshal(ov)
			f.Write(b)
			f.Close()
			defer os.Remove(f.Name())
			obs, err := runObligations(o, f.Name())
			if err != nil {
				outs[i] = outcome{m.Name, m.Kind, "error", err.Error()}
				return
			}
			var fresh []string
			hit := false
			broken := ""
			for k, ob := range bad(obs) {
				if _, was := baseBad[k]; was {
					continue
				}
				if ob.Rule == "R0" {
					broken = ob.Detail
				}
				fresh = append(fresh, ob.Rule+" "+ob.Key)
				if ob.Rule == m.Expect {
					hit = true
				}
			}
			sort.Strings(fresh)
			if broken != "" {
				if len(broken) > 160 {
					broken = broken[:160]
				}
				outs[i] = outcome{m.Name, m.Kind, "skipped", "does not compile: " + broken}
				return
			}
			switch m.Kind {
			case "variant":
				if len(fresh) == 0 {
					outs[i] = outcome{m.Name, m.Kind, "silent", ""}
				} else {
					outs[i] = outcome{m.Name, m.Kind, "FALSE-ALARM", strings.Join(fresh, "; ")}
				}
			default:
				if hit {
					outs[i] = outcome{m.Name, m.Kind, "detected", strings.Join(fresh, "; ")}
				} else if len(fresh) > 0 {
					outs[i] = outcome{m.Name, m.Kind, "detected-by-other-rule", strings.Join(fresh, "; ")}
				} else {
					outs[i] = outcome{m.Name, m.Kind, "MISSED", "expected " + m.Expect}
				}
			}
		}(i, m)
	}
	wg.Wait()
	applied, detected, vApplied, vSilent := 0, 0, 0, 0
	var list []map[string]string
	for _, oc := range outs {
		list = append(list, map[string]string{"name": oc.Name, "kind": oc.Kind, "result": oc.Result, "detail": oc.Detail})
		if oc.Result == "skipped" || oc.Result == "error" {
			continue
		}
		if oc.Kind == "variant" {
			vApplied++
			if oc.Result == "silent" {
				vSilent++
			}
		} else {
			applied++
			if strings.HasPrefix(oc.Result, "detected") {
				detected++
			}
		}
	}
	res["mutants_applied"] = applied
	res["mutants_detected"] = detected
	res["variants_applied"] = vApplied
	res["variants_silent"] = vSilent
	res["outcomes"] = list
	return res
}

func mutantsCmd(args []string) int {
	o := parse(args)
	sv := selfValidate(o)
	b, _ := json.MarshalIndent(sv, "", " ")
	fmt.Println(string(b))
	if sv["mutants_applied"] != sv["mutants_detected"] || sv["variants_applied"] != sv["variants_silent"] {
		return 1
	}
	return 0
}
