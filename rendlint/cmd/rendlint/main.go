// rendlint: repository-specific static checks for geobeau/rend (see /verif/DESIGN.md).
package main

import (
	"encoding/json"
	"flag"
	"fmt"
	"os"
	"path/filepath"
	"runtime/debug"
	"sort"
	"strings"
	"time"

	"rendlint/core"
	"rendlint/rules"
)

func main() {
	if len(os.Args) < 2 {
		usage()
	}
	switch os.Args[1] {
	case "check":
		os.Exit(check(os.Args[2:]))
	case "replay":
		os.Exit(replay(os.Args[2:]))
	case "list":
		list()
	case "mutants":
		os.Exit(mutantsCmd(os.Args[2:]))
	case "alarms":
		os.Exit(alarms(os.Args[2:]))
	default:
		usage()
	}
}

func usage() {
	fmt.Fprintln(os.Stderr, "usage: rendlint check --property Cxx [--tier quick|thorough] [--repo /repo] [--verif /verif]\n       rendlint replay <violation.json>\n       rendlint list\n       rendlint mutants --property Cxx")
	os.Exit(2)
}

type opts struct {
	property, tier, repo, verif, overlay string
	only                                 string
	noEmit                               bool
}

func parse(args []string) opts {
	fs := flag.NewFlagSet("check", flag.ExitOnError)
	var o opts
	fs.StringVar(&o.property, "property", "", "property id (C01..C19)")
	fs.StringVar(&o.tier, "tier", os.Getenv("VERIF_TIER"), "quick | thorough")
	fs.StringVar(&o.repo, "repo", "/repo", "repository root")
	fs.StringVar(&o.verif, "verif", "/verif", "verification root")
	fs.StringVar(&o.overlay, "overlay", "", "JSON file {abs file: contents} applied in memory (self-validation only)")
	fs.StringVar(&o.only, "only", "", "internal: print obligations as JSON instead of emitting evidence")
	fs.Parse(args)
	if o.tier == "" {
		o.tier = "quick"
	}
	return o
}

func runConfig(o opts, arch string, overlay map[string][]byte, res *core.Result) (err error) {
	defer func() {
		if r := recover(); r != nil {
			err = fmt.Errorf("analysis panic: %v\n%s", r, debug.Stack())
		}
	}()
	p, err := core.Load(o.repo, arch, overlay)
	if err != nil {
		return err
	}
	cfg := arch
	if cfg == "" {
		cfg = "default"
	}
	ctx := core.NewCtx(p, o.property, cfg)
	if err := rules.Run(o.property, ctx); err != nil {
		return err
	}
	ctx.Finish()
	res.Merge(ctx)
	res.Pkgs, res.Files, res.Funcs = p.Stats()
	return nil
}

func readOverlay(path string) (map[string][]byte, error) {
	if path == "" {
		return nil, nil
	}
	b, err := os.ReadFile(path)
	if err != nil {
		return nil, err
	}
	var m map[string]string
	if err := json.Unmarshal(b, &m); err != nil {
		return nil, err
	}
	out := map[string][]byte{}
	for k, v := range m {
		out[k] = []byte(v)
	}
	return out, nil
}

func check(args []string) int {
	o := parse(args)
	meta, ok := rules.Meta[o.property]
	if !ok {
		fmt.Fprintln(os.Stderr, "unknown property", o.property)
		return 2
	}
	overlay, err := readOverlay(o.overlay)
	if err != nil {
		fmt.Fprintln(os.Stderr, err)
		return 2
	}
	res := &core.Result{Property: o.property, Tier: o.tier, Start: time.Now(), Explain: meta.Explain + " Rules added after the seeded-change rounds (DESIGN.md section 9.4), including the necessary conditions shared with other properties, are listed with their texts and counts under coverage.rules.", Assume: meta.Assume, Extra: map[string]interface{}{}}
	fail := func(err error, cfg string) int {
		// a load failure, type error or analysis panic is an undecided obligation: the check fails
		ctx := core.NewCtx(nil, o.property, cfg)
		ctx.Rule("R0", "the program must load, type-check and be analysable", 0)
		ctx.Undecided("R0", "load/"+cfg, "-", err.Error())
		res.Merge(ctx)
		return 0
	}
	if err := runConfig(o, "", overlay, res); err != nil {
		fail(err, "default")
	}
	if o.tier == "thorough" && o.overlay == "" {
		if err := runConfig(o, "386", overlay, res); err != nil {
			fail(err, "386")
		}
	}
	if o.only != "" {
		b, _ := json.Marshal(res.Obs)
		os.Stdout.Write(b)
		return 0
	}
	if o.tier == "thorough" && o.overlay == "" {
		sv := selfValidate(o)
		res.Extra["selfvalidation"] = sv
	}
	findings, err := core.LoadFindings(filepath.Join(o.verif, "known_findings.json"))
	if err != nil {
		fmt.Println("known_findings.json unreadable:", err)
		return 2
	}
	return res.Emit(o.verif, findings)
}

func replay(args []string) int {
	if len(args) < 1 {
		usage()
	}
	b, err := os.ReadFile(args[0])
	if err != nil {
		fmt.Fprintln(os.Stderr, err)
		return 2
	}
	var v struct{ Property, Rule, Key string }
	if err := json.Unmarshal(b, &v); err != nil {
		fmt.Fprintln(os.Stderr, err)
		return 2
	}
	o := parse(append([]string{"--property", v.Property}, args[1:]...))
	res := &core.Result{Property: v.Property, Tier: "quick", Start: time.Now()}
	if err := runConfig(o, "", nil, res); err != nil {
		fmt.Println("UNDECIDED", err)
		return 1
	}
	code := 0
	found := false
	for _, ob := range res.Obs {
		if ob.Rule == v.Rule && ob.Key == v.Key {
			found = true
			fmt.Printf("%s %s %s at %s: %s\n", strings.ToUpper(string(ob.Status)), ob.Rule, ob.Key, ob.Pos, ob.Detail)
			for _, t := range ob.Trail {
				fmt.Println("   ", t)
			}
			if ob.Status == core.Violated || ob.Status == core.Undecided {
				code = 1
			}
		}
	}
	if !found {
		fmt.Printf("obligation %s %s no longer exists on this tree\n", v.Rule, v.Key)
	}
	return code
}

func list() {
	var ids []string
	for id := range rules.Meta {
		ids = append(ids, id)
	}
	sort.Strings(ids)
	for _, id := range ids {
		fmt.Printf("%s  %s\n", id, rules.Meta[id].Title)
	}
}

// alarms (tooling for evaluating seeded changes, never part of a verdict): loads the tree once, runs the quick rules
// of every listed property and prints {"Cxx": ["rule key: detail", ...]} for the obligations that would make the
// check fail (violated or undecided, not a listed known finding).
func alarms(args []string) int {
	o := parse(args)
	props := []string{}
	if o.property == "" || o.property == "all" {
		for id := range rules.Meta {
			props = append(props, id)
		}
	} else {
		props = strings.Split(o.property, ",")
	}
	sort.Strings(props)
	findings, _ := core.LoadFindings(filepath.Join(o.verif, "known_findings.json"))
	known := map[string]bool{}
	for _, f := range findings {
		if f.Status == "known" {
			known[f.Property+"|"+f.Rule+"|"+f.Key] = true
		}
	}
	out := map[string][]string{}
	overlay, _ := readOverlay(o.overlay)
	p, err := core.Load(o.repo, "", overlay)
	if err != nil {
		for _, id := range props {
			out[id] = []string{"R0 load: " + err.Error()}
		}
	} else {
		for _, id := range props {
			func() {
				defer func() {
					if r := recover(); r != nil {
						out[id] = append(out[id], fmt.Sprintf("R0 analysis panic: %v", r))
					}
				}()
				ctx := core.NewCtx(p, id, "default")
				if err := rules.Run(id, ctx); err != nil {
					out[id] = append(out[id], "R0 "+err.Error())
					return
				}
				ctx.Finish()
				res := &core.Result{Property: id}
				res.Merge(ctx)
				for _, ob := range res.Obs {
					if (ob.Status == core.Violated || ob.Status == core.Undecided) && !known[id+"|"+ob.Rule+"|"+ob.Key] {
						d := ob.Detail
						if len(d) > 220 {
							d = d[:220]
						}
						out[id] = append(out[id], fmt.Sprintf("%s %s: %s", ob.Rule, ob.Key, d))
					}
				}
			}()
		}
	}
	b, _ := json.MarshalIndent(out, "", " ")
	os.Stdout.Write(b)
	fmt.Println()
	return 0
}
